"""Runs a whole launch() of the real system under the deterministic scheduler, with recording /
fault-injecting components and a scripted client that talks to the web API in-process (ASGI).

run_scenario(spec) -> {"trace": [[thread, label, ...]], "outcome": ..., "deadlock": ..., ...}
"""
from __future__ import annotations

import asyncio
import json
import random
import shutil
import tempfile
import warnings
from pathlib import Path

from harness.sim import sched as S
from harness.sim.boot import boot


class Injected(Exception):
    pass


def _asgi_call(app, method, path):
    """one in-process HTTP request against the Starlette app; returns (status, json body)"""
    out = {}

    async def go():
        scope = {"type": "http", "asgi": {"version": "3.0"}, "http_version": "1.1", "method": method, "scheme": "http",
                 "path": path, "raw_path": path.encode(), "query_string": b"", "headers": [], "server": ("sim", 80), "client": ("sim", 1),
                 "root_path": ""}

        async def receive():
            return {"type": "http.request", "body": b"", "more_body": False}

        async def send(msg):
            if msg["type"] == "http.response.start":
                out["status"] = msg["status"]
            elif msg["type"] == "http.response.body":
                out["body"] = out.get("body", b"") + msg.get("body", b"")

        await app(scope, receive, send)

    asyncio.run(go())
    try:
        body = json.loads(out.get("body", b"null"))
    except Exception:  # noqa: BLE001
        body = None
    return out.get("status"), body


def run_scenario(spec: dict) -> dict:
    b = boot()
    pc = b["pamiq_core"]
    import pamiq_core.thread.threads.control as control_mod
    import pamiq_core.time as ptime
    from pamiq_core.console.web_api import WebApiServer
    from pamiq_core.data.impls import SequentialBuffer
    from pamiq_core.state_persistence import StateStore
    from pamiq_core.thread.threads.base import Thread as PThread

    warnings.simplefilter("ignore")
    rng = random.Random(spec.get("seed", 0))
    if "schedule" in spec:
        chooser = S.chooser_explicit(spec["schedule"], S.chooser_random(rng))
    elif spec.get("chooser") == "pct":
        chooser = S.chooser_pct(rng, spec.get("pct_depth", 3), spec.get("est_len", 600))
    else:
        chooser = S.chooser_random(rng)
    sched = S.Sched(chooser, budget=spec.get("budget", 400.0), max_events=spec.get("max_events", 20000))
    S.set_sched(sched)

    faults = {(f["where"], f["k"]) for f in spec.get("faults", [])}
    # a fault that persists: the callback fails at its k-th call and at every later one (a broken component stays broken)
    persistent = {f["where"]: f["k"] for f in spec.get("faults", []) if f.get("persist")}
    counts: dict[str, int] = {}

    def cb(name, dur=0.0, body=None):
        """a user callback: begin marker, optional fault, optional duration, end marker"""
        k = counts.get(name, 0) + 1
        counts[name] = k
        S.mark("cb_b", name)
        if (name, k) in faults or (name in persistent and k >= persistent[name]):
            S.mark("cb_raise", name)
            raise Injected(f"{name}#{k}")
        if body:
            body()
        if dur > 0:
            S.sim_sleep(dur)
        S.mark("cb_e", name)

    step_dur = spec.get("step_dur", 0.0)
    train_dur = spec.get("train_dur", 0.0)
    hook_dur = spec.get("hook_dur", 0.0)
    state = {"steps": 0, "trains": 0, "collector": None}

    class A(pc.Agent):
        def on_data_collectors_attached(self):
            state["collector"] = self.get_data_collector("buf")
            state["hidden"] = 0     # state that the agent builds when it is wired up (like a recurrent agent's hidden state); persisted

        def setup(self):
            cb("a.setup")

        def teardown(self):
            cb("a.teardown", spec.get("teardown_dur", 0.0))

        def on_paused(self):
            cb("a.hookP", hook_dur)

        def on_resumed(self):
            cb("a.hookR", hook_dur)

        def step(self, observation):
            if "pacing" in result:
                # the instant the step starts: the library's system time (exact float) and the raw virtual instant
                result["pacing"]["steps"].append([float(tc.perf_counter()).hex(), float(sched.now).hex(), None])

            def body():
                if "first" not in result:
                    result["first"] = {"steps_before": state["steps"], "hidden_before": state.get("hidden"), "clock": tc.time(), "raw": sched.now,
                                       "buf": list(state["user"].get_data()) if state.get("user") is not None and spec.get("load_from") else None}
                state["steps"] += 1
                state["hidden"] = state.get("hidden", 0) + 1
                state["collector"].collect(state["steps"])
            cb("a.step", step_dur, body)
            if "pacing" in result:
                result["pacing"]["steps"][-1][2] = float(sched.now).hex()
                result["pacing"]["steps"][-1].append(float(tc.perf_counter()).hex())     # system time at the end of the step
            return None

        def save_state(self, path):
            path.mkdir(exist_ok=True)
            (path / "steps").write_text(str(state["steps"]))
            (path / "hidden").write_text(str(state.get("hidden", 0)))
            S.mark("saved", "agent", state["steps"])

        def load_state(self, path):
            state["steps"] = int((path / "steps").read_text())
            state["hidden"] = int((path / "hidden").read_text())

    class E(pc.Environment):
        def setup(self):
            cb("e.setup")

        def teardown(self):
            cb("e.teardown")

        def on_paused(self):
            cb("e.hookP")

        def on_resumed(self):
            cb("e.hookR")

        def observe(self):
            return None

        def affect(self, action):
            pass

    class T(pc.Trainer):
        def __init__(self):
            if spec.get("train_cond"):
                super().__init__("buf", spec["train_cond"][0], spec["train_cond"][1])
            else:
                super().__init__()

        def on_paused(self):
            cb("t.hookP", hook_dur)

        def on_resumed(self):
            cb("t.hookR", hook_dur)

        def train(self):
            def body():
                state["trains"] += 1
            cb("t.train", train_dur, body)

        def on_data_users_attached(self):
            state["user"] = self.get_data_user("buf")
            state["trainer"] = self

        def save_state(self, path):
            super().save_state(path)
            (path / "trains").write_text(str(state["trains"]))
            S.mark("saved", "trainer", state["trains"])

        def load_state(self, path):
            super().load_state(path)
            state["trains"] = int((path / "trains").read_text())

    servers = []

    class CapturingServer(WebApiServer):
        def __init__(self, *a, **k):
            super().__init__(*a, **k)
            servers.append(self)

    control_mod.WebApiServer = CapturingServer

    # observable seams: clock pause / resume / scale, state store save
    orig_pause, orig_resume, orig_scale = ptime.pause, ptime.resume, ptime.set_time_scale
    tc = ptime.get_global_time_controller()

    # timeline: raw (virtual) instants of the clock operations and of the uptime checks, for C08's arithmetic
    timeline = []


    def logged_pause():
        S.mark("clock_pause")
        orig_pause()
        timeline.append(["pause", sched.now, len(sched.trace), tc.time()])

    def logged_resume():
        S.mark("clock_resume")
        before = tc.time()
        orig_resume()
        timeline.append(["resume", sched.now, len(sched.trace), before])

    def logged_scale(k):
        S.mark("clock_scale", k)
        orig_scale(k)
        timeline.append(["scale", sched.now, len(sched.trace), k])

    ptime.pause, ptime.resume, ptime.set_time_scale = logged_pause, logged_resume, logged_scale

    orig_uptime = control_mod.ControlThread.is_max_uptime_reached
    orig_ctl_start = control_mod.ControlThread.on_start
    # where the control thread is, for the delivery of keyboard interrupts at arbitrary operations
    ctl_at = {"loop": False, "pool": False, "save": False}

    def logged_uptime(self):
        raw = sched.now
        r = orig_uptime.fget(self)
        timeline.append(["check", raw, len(sched.trace), bool(r)])
        S.mark("uptime", bool(r))
        return r

    def logged_ctl_start(self):
        orig_ctl_start(self)
        timeline.append(["start", sched.now, len(sched.trace)])
        ctl_at["loop"] = True

    control_mod.ControlThread.is_max_uptime_reached = property(logged_uptime)
    control_mod.ControlThread.on_start = logged_ctl_start
    orig_save = StateStore.save_state

    def logged_save(self):
        k = counts.get("save", 0) + 1
        counts["save"] = k
        S.mark("save_b")
        timeline.append(["save_b", sched.now, len(sched.trace), tc.time()])
        if ("save", k) in faults:
            S.mark("save_raise")
            raise Injected(f"save#{k}")
        ctl_at["save"] = True          # until the end mark has been written (marks are scheduling points too)
        try:
            p = orig_save(self)
        except BaseException:
            ctl_at["save"] = False
            raise
        info = {}
        try:  # read the written state back (no yield points here): what is in the buffer, the agent's counter, the clock
            import pickle
            buf = list(pickle.load(open(Path(p) / "data" / "buf" / "buffer.pkl", "rb")))
            info = {"steps_now": state["steps"], "buf_len": len(buf), "buf_last": buf[-1] if buf else 0,
                    "buf_ok": buf == list(range(max(1, state["steps"] - len(buf) + 1), state["steps"] + 1)),
                    "agent_steps": int((Path(p) / "interaction" / "agent" / "steps").read_text()),
                    "trains_now": state["trains"], "trainer_trains": int((Path(p) / "trainers" / "t" / "trains").read_text()),
                    "clock_saved": pickle.load(open(Path(p) / "time.pkl", "rb"))["scaled_anchor_time"], "clock_now": tc.time(),
                    "buf": buf, "marker": repr(state["trainer"]._previous_training_time) if state.get("trainer") is not None else None,
                    "marker_file": (Path(p) / "trainers" / "t" / "previous_training_time").read_text()}
        except Exception as e:  # noqa: BLE001
            info = {"readback_error": f"{type(e).__name__}: {e}"}
        timeline.append(["save_e", sched.now, len(sched.trace), tc.time()])
        if result.get("keeper_log") is not None:
            result["keeper_log"].append(["saved", Path(p).name, sorted(q.name for q in state["keeper_dir"].iterdir())])
        try:
            S.mark("save_e", Path(p).name, tc.is_paused(), info)
        finally:
            ctl_at["save"] = False
        return p

    StateStore.save_state = logged_save

    cond_ticks = set(spec.get("save_at_ticks", []))
    tick_no = {"n": 0}

    def save_condition():
        tick_no["n"] += 1
        k = counts.get("savecond", 0) + 1
        counts["savecond"] = k
        r = tick_no["n"] in cond_ticks
        if ("savecond", k) in faults:
            S.mark("savecond_raise")
            raise Injected(f"savecond#{k}")
        S.mark("savecond", r)
        return r

    old_delay = PThread.LOOP_DELAY
    PThread.LOOP_DELAY = spec.get("loop_delay", 0.001)
    tmp = spec.get("states_root") or tempfile.mkdtemp(prefix="pamiq_sim_")
    result: dict = {"outcome": None, "timeline": timeline}
    orig_load = StateStore.load_state

    def logged_load(self, path):
        orig_load(self, path)
        u = state.get("user")
        result["loaded"] = {"steps": state["steps"], "trains": state["trains"], "clock": tc.time(), "raw": sched.now,
                            "buf": list(u.get_data()) if u is not None else None, "len": len(u) if u is not None else None,
                            "count_all": u.count_data_added_since(float("-inf")) if u is not None else None,
                            "marker": repr(state["trainer"]._previous_training_time) if state.get("trainer") is not None else None}

    StateStore.load_state = logged_load
    done = {"launch": False}

    # name the events by role once the objects exist (ThreadController / ThreadStatus are created in launch)
    import pamiq_core.thread.thread_control as tcm
    orig_tc_init, orig_ts_init = tcm.ThreadController.__init__, tcm.ThreadStatus.__init__
    ts_count = {"n": 0}

    def role_events(obj, stems):
        """the Event attributes of a control object by role, found by the stem of the attribute name (private names get
        renamed); when the roles cannot be told apart the harness cannot drive this code: StubIncomplete"""
        from harness.stub_incomplete import StubIncomplete
        evs = {k: v for k, v in vars(obj).items() if isinstance(v, S.Event)}
        out = {}
        for role, stem in stems.items():
            hit = [v for k, v in evs.items() if stem in k.lower()]
            if len(hit) != 1 or len(evs) != len(stems):
                raise StubIncomplete(f"cannot tell the events of {type(obj).__name__} apart: {sorted(evs)}")
            out[role] = hit[0]
        return out

    def tc_init(self):
        orig_tc_init(self)
        ev = role_events(self, {"shutdown": "shut", "resume": "resum"})
        ev["shutdown"].name = "shutdown"
        ev["resume"].name = "resume"

    def ts_init(self):
        orig_ts_init(self)
        i = ts_count["n"]
        ts_count["n"] += 1
        ev = role_events(self, {"paused": "paus", "exc": "exc"})
        ev["paused"].name = f"paused{i}"
        ev["exc"].name = f"exc{i}"
        self.pool_role = i

    tcm.ThreadController.__init__, tcm.ThreadStatus.__init__ = tc_init, ts_init

    def client():
        try:
            for c in spec.get("cmds", []):
                if done["launch"]:
                    break
                if c[0] == "sleep":
                    S.sim_sleep(c[1])
                    continue
                while not servers and not done["launch"]:
                    S.sim_sleep(0.0005)
                if done["launch"]:
                    break
                app = servers[0]._app
                if c[0] == "status":
                    S.mark("status_b")
                    st, body = _asgi_call(app, "GET", "/api/status")
                    S.mark("status_e", st, (body or {}).get("status"))
                elif c[0] == "raw":
                    st, body = _asgi_call(app, c[1], c[2])
                    S.mark("http", c[1], c[2], st)
                else:
                    path = {"pause": "/api/pause", "resume": "/api/resume", "save": "/api/save-state", "shutdown": "/api/shutdown"}[c[0]]
                    tries = 0
                    while True:
                        st, body = _asgi_call(app, "POST", path)
                        S.mark("http", "POST", path, st)
                        tries += 1
                        if st == 200 or not c[1:] or c[1] != "retry" or done["launch"] or tries > 200:
                            break
                        S.sim_sleep(0.002)
        except S.Abort:
            raise
        except BaseException as e:  # noqa: BLE001
            result["client_error"] = f"{type(e).__name__}: {e}"

    keeper = None
    if spec.get("keeper_max_keep") is not None:
        # a real LatestStatesKeeper on the states directory; its cleanups (return value, directory listing afterwards) and
        # what the StateStore actually saved are recorded in one log, in the order they happened
        from pamiq_core.state_persistence import LatestStatesKeeper
        ksd = Path(tmp) / ("states2" if spec.get("load_from") and not spec.get("same_states_dir") else "states")
        ksd.mkdir(parents=True, exist_ok=True)
        keeper = LatestStatesKeeper(ksd, spec["keeper_max_keep"])
        klog = result["keeper_log"] = []
        keeper_cleanup = keeper.cleanup

        def logged_cleanup():
            r = keeper_cleanup()
            klog.append(["cleanup", [Path(p).name for p in r], sorted(p.name for p in ksd.iterdir())])
            return r
        keeper.cleanup = logged_cleanup
        state["keeper_dir"] = ksd

    def main():
        ct = S.Thread(target=client, name="client")
        ct.start()
        cfg = dict(states_dir=Path(tmp) / ("states2" if spec.get("load_from") and not spec.get("same_states_dir") else "states"),
                   states_keeper=keeper,
                   saved_state_path=(Path(tmp) / "states" / spec["load_from"]) if spec.get("load_from") else None,
                   save_state_condition=save_condition,
                   timeout_for_all_threads_pause=spec.get("pause_timeout", 60.0),
                   max_attempts_to_pause_all_threads=spec.get("attempts", 3),
                   max_uptime=spec.get("max_uptime", float("inf")),
                   web_api_address=("sim", 1), web_api_command_queue_size=spec.get("queue_size", 1),
                   log_tick_time_statistics_interval=spec.get("log_interval", 60.0),
                   time_scale=spec.get("time_scale", 1.0))
        try:
            if spec.get("fixed_interval"):
                # a fixed-interval interaction: where the adjustor was reset (end of setup) and when each adjust() returned
                from pamiq_core.interaction.interval_adjustors import IntervalAdjustor
                inter = pc.FixedIntervalInteraction.with_sleep_adjustor(A(), E(), spec["fixed_interval"][0], spec["fixed_interval"][1])
                pacing = result["pacing"] = {"steps": [], "after_adjust": []}
                adj = [v for v in vars(inter).values() if isinstance(v, IntervalAdjustor)]
                if len(adj) != 1:
                    from harness.stub_incomplete import StubIncomplete
                    raise StubIncomplete("cannot find the interaction's interval adjustor")
                orig_setup, orig_adjust = inter.setup, adj[0].adjust

                def setup_seen():
                    orig_setup()
                    pacing["t0"], pacing["raw0"] = float(tc.perf_counter()).hex(), float(sched.now).hex()

                def adjust_seen():
                    i0 = len(sched.trace)
                    try:
                        r = orig_adjust()
                    finally:
                        pacing.setdefault("adjust_spans", []).append([i0, len(sched.trace)])   # the events of the wait itself
                    pacing["after_adjust"].append(float(sched.now).hex())
                    pacing.setdefault("after_adjust_sys", []).append(float(tc.perf_counter()).hex())
                    return r
                inter.setup, adj[0].adjust = setup_seen, adjust_seen
            else:
                inter = pc.Interaction(A(), E())
            pc.launch(inter, {}, {"buf": SequentialBuffer(spec.get("buf_size", 1000))}, {} if spec.get("no_trainers") else {"t": T()}, cfg)
            result["outcome"] = "returned"
        except Injected as e:
            result["outcome"] = "raised:" + str(e)
        except S.Abort:
            raise
        except BaseException as e:  # noqa: BLE001
            import traceback
            result["outcome"] = f"error:{type(e).__name__}: {e}"
            result["tb"] = traceback.format_exc()[-1500:]
        finally:
            done["launch"] = True
            S.mark("launch_done", result["outcome"] or "?", tc.is_paused(), tc.get_time_scale())
        ct.join()

    orig_shutdown, orig_ctl_finally = control_mod.ControlThread.shutdown, control_mod.ControlThread.on_finally
    orig_wait_all = tcm.ThreadStatusesMonitor.wait_for_all_threads_pause
    if spec.get("interrupt_at_op") is not None:
        # KeyboardInterrupt delivered to the control (= main) thread before its n-th synchronisation operation inside the
        # control loop - anywhere but in the worker-pool section of try_pause, inside a state save and in the finally clause
        ia = {"n": 0, "done": False}

        def waiting_all(self, *a, **k):
            ctl_at["pool"] = True
            try:
                return orig_wait_all(self, *a, **k)
            finally:
                ctl_at["pool"] = False

        def finally_seen(self):
            ctl_at["loop"] = False
            return orig_ctl_finally(self)
        tcm.ThreadStatusesMonitor.wait_for_all_threads_pause = waiting_all
        control_mod.ControlThread.on_finally = finally_seen

        def pre_op(me):
            if me.name != "main" or ia["done"] or not ctl_at["loop"] or ctl_at["pool"] or ctl_at["save"]:
                return None
            ia["n"] += 1
            if ia["n"] == spec["interrupt_at_op"]:
                ia["done"] = True
                return KeyboardInterrupt()
            return None
        sched.pre_op = pre_op
    if spec.get("interrupt_in_shutdown") is not None:
        # KeyboardInterrupt delivered to the control (= main) thread while a shutdown requested by the control tick (a
        # command, the uptime limit, a failed thread) is in progress: before its k-th synchronisation operation
        sd = {"calls": 0, "inside": False, "ops": 0, "fin": False}
        base_log = sched.log

        def shutdown_log(*label):
            base_log(*label)
            if sd["inside"] and sched.cur and sched.cur.name == "main" and label and label[0] in ("is_set", "set", "clear"):
                sd["ops"] += 1
                if sd["ops"] == spec["interrupt_in_shutdown"]:
                    sched.cur.inject = KeyboardInterrupt()
        sched.log = shutdown_log

        def logged_shutdown(self):
            sd["calls"] += 1
            if sd["calls"] == 1 and not sd["fin"]:
                sd["inside"], sd["ops"] = True, 0
                if spec["interrupt_in_shutdown"] == 0:
                    sched.cur.inject = KeyboardInterrupt()
            try:
                return orig_shutdown(self)
            finally:
                if sd["inside"]:
                    sd["inside"] = False
                    if sched.cur is not None:
                        sched.cur.inject = None      # the shutdown got through before the interrupt was due

        def logged_ctl_finally(self):
            sd["fin"] = True
            return orig_ctl_finally(self)
        control_mod.ControlThread.shutdown, control_mod.ControlThread.on_finally = logged_shutdown, logged_ctl_finally

    if spec.get("interrupt_at") is not None:
        # KeyboardInterrupt delivered to the control (= main) thread at its n-th sleep
        n = {"k": 0}
        orig_log = sched.log

        def log(*label):
            orig_log(*label)
            if sched.cur and sched.cur.name == "main" and label and label[0] == "sleep":
                n["k"] += 1
                if n["k"] == spec["interrupt_at"]:
                    sched.cur.inject = KeyboardInterrupt()
        sched.log = log

    try:
        trace = sched.run(main, "main", wall_timeout=spec.get("wall_timeout", 60.0))
    finally:
        ptime.pause, ptime.resume, ptime.set_time_scale = orig_pause, orig_resume, orig_scale
        StateStore.save_state = orig_save
        StateStore.load_state = orig_load
        control_mod.ControlThread.is_max_uptime_reached = orig_uptime
        control_mod.ControlThread.on_start = orig_ctl_start
        control_mod.ControlThread.shutdown, control_mod.ControlThread.on_finally = orig_shutdown, orig_ctl_finally
        tcm.ThreadStatusesMonitor.wait_for_all_threads_pause = orig_wait_all
        tcm.ThreadController.__init__, tcm.ThreadStatus.__init__ = orig_tc_init, orig_ts_init
        PThread.LOOP_DELAY = old_delay
        control_mod.WebApiServer = WebApiServer
        S.set_sched(None)
        # leave the global clock as a fresh run expects it
        try:
            orig_resume(); orig_scale(1.0)
        except Exception:  # noqa: BLE001
            pass
        states = sorted(p.name for p in (Path(tmp) / "states").glob("*.state")) if (Path(tmp) / "states").exists() else []
        if not spec.get("states_root"):
            shutil.rmtree(tmp, ignore_errors=True)
    if str(result.get("outcome") or "").startswith("error:StubIncomplete"):
        result["error"] = str(result["outcome"])[len("error:"):]      # the harness could not drive this code (see harness/core.py)
    result["times"] = list(sched.times[:len(trace)])
    result.update({"trace": trace, "deadlock": None if sched.deadlock is None else str(sched.deadlock), "vtime": sched.now,
                   "choices": sched.choices, "states": states, "steps": state["steps"], "trains": state["trains"], "hidden": state.get("hidden")})
    return result
