"""Conversion of harness traces ([thread, label, args...]) into Coq terms of Model/Threads.v."""
from harness.core import cb, cl, cn

CBN = {"a.setup": "ASetup", "e.setup": "ESetup", "a.step": "AStep", "a.hookP": "AHookP", "e.hookP": "EHookP", "a.hookR": "AHookR",
       "e.hookR": "EHookR", "a.teardown": "ATeardown", "e.teardown": "ETeardown", "t.train": "TTrain", "t.hookP": "THookP", "t.hookR": "THookR"}
CMD = {"PAUSE": "CmdPause", "RESUME": "CmdResume", "SAVE_STATE": "CmdSave", "SHUTDOWN": "CmdShutdown"}


def tid(name):
    if name == "main":
        return "TCtl"
    if name.startswith("bg"):
        return f"(TBg {cn(int(name[2:]))})"
    if name.startswith("pool:"):
        return f"(TPool {cn(int(name[5:]))})"
    if name == "client":
        return "TClient"
    if name == "webapi":
        return "TWeb"
    raise ValueError(name)


def evn(name):
    if name == "resume":
        return "ERes"
    if name == "shutdown":
        return "EShut"
    if name.startswith("paused"):
        return f"(EPaused {cn(int(name[6:]))})"
    if name.startswith("exc"):
        return f"(EExc {cn(int(name[3:]))})"
    raise ValueError(name)


def label(e):
    k = e[1]
    if k in ("is_set", "set", "clear", "wait_now", "wait_block", "wait_ret"):
        try:
            evn(e[2])
        except (ValueError, TypeError, AttributeError):
            # an event object the model does not know (code that synchronises through something of its own): the operation is
            # kept as one the model has no place for - the trace is then not accepted, but the monitors still see the rest
            return "LOther"
    if k == "is_set":
        return f"(LIsSet {evn(e[2])} {cb(e[3])})"
    if k == "set":
        return f"(LSet {evn(e[2])})"
    if k == "clear":
        return f"(LClear {evn(e[2])})"
    if k == "wait_now":
        return f"(LWaitNow {evn(e[2])})"
    if k == "wait_block":
        return f"(LWaitBlock {evn(e[2])} {cb(e[3])})"
    if k == "wait_ret":
        return f"(LWaitRet {evn(e[2])} {cb(e[3])})"
    if k == "sleep":
        return "LSleep"
    if k == "start":
        return f"(LStart {tid(e[2])})"
    if k == "join":
        return f"(LJoin {tid(e[2])})"
    if k == "exit":
        return f"(LExit {cb(e[2] == 'raised')})"
    if k == "cb_b":
        return f"(LCbB {CBN[e[2]]})"
    if k == "cb_e":
        return f"(LCbE {CBN[e[2]]})"
    if k == "cb_raise":
        return f"(LCbRaise {CBN[e[2]]})"
    if k == "q_put":
        return f"(LQPut {CMD[e[2]]} {cb(e[3])})"
    if k == "q_empty":
        return f"(LQEmpty {cb(e[2])})"
    if k == "q_get":
        return f"(LQGet {CMD[e[2]]})"
    if k == "clock_pause":
        return "LClockPause"
    if k == "clock_resume":
        return "LClockResume"
    if k == "clock_scale":
        return "LClockScale"
    if k == "savecond":
        return f"(LSaveCond {cb(e[2])})"
    if k == "savecond_raise":
        return "LSaveCondRaise"
    if k == "save_b":
        return "LSaveB"
    if k == "save_e":
        return "LSaveE"
    if k == "save_raise":
        return "LSaveRaise"
    if k == "interrupt":
        return "LInterrupt"
    if k == "uptime":
        return f"(LUptime {cb(e[2])})"
    if k == "launch_done":
        return f"(LLaunchDone {cb(not str(e[2]).startswith('returned'))})"
    return "LOther"


def project(trace):
    """what the thread model consumes: everything except the harness' own thread start"""
    return [e for e in trace if not (e[0] == "main" and e[1] == "start" and e[2] == "client")]


def coq_trace(trace):
    return cl(f"({tid(e[0])}, {label(e)})" for e in project(trace))
