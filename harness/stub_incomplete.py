"""Raised by the stand-ins (virtual threading / time / queue, the stand-in torch package) when the code under test uses
a part of the real API that the stand-in does not provide.  It is the harness that cannot drive that code, not the
code that is wrong: the check reports a broken correspondence (no failing input), never a failing input."""


class StubIncomplete(AttributeError):
    pass
