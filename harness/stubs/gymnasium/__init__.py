"""Minimal stand-in for the `gymnasium` package (the real one cannot be installed in this sandbox).
Only what pamiq_core.gym touches: Env (generic, reset/step/close) and make()."""
from typing import Any, Generic, TypeVar

ObsType = TypeVar("ObsType")
ActType = TypeVar("ActType")

_REGISTRY: dict[str, Any] = {}


class Env(Generic[ObsType, ActType]):
    def reset(self, *, seed: int | None = None, options: dict | None = None):
        raise NotImplementedError

    def step(self, action):
        raise NotImplementedError

    def close(self):
        pass


def register(id: str, factory) -> None:  # noqa: A002
    _REGISTRY[id] = factory


def make(id: str, **kwds):  # noqa: A002
    return _REGISTRY[id](**kwds)
