"""A minimal stand-in for the `torch` package (real torch cannot be installed in this sandbox), just enough for
pamiq_core/torch/model.py, trainer.py and agent.py to import and run.  What matters for C19 is the copy
semantics, kept as in PyTorch: state_dict() returns REFERENCES to the module's own parameter tensors (no
copy), load_state_dict() copies values element by element, parameter by parameter, into the module's own
tensors (not atomic), deepcopy duplicates a module with its tensors, parameters() yields the live objects.

Every parameter read / write, grad assignment and mode change is reported to torch._OBSERVER (set by the
harness); each of them is also a scheduling point in the harness' line-level mode."""
import functools
import pickle

try:
    from harness.stub_incomplete import StubIncomplete
except Exception:  # noqa: BLE001  (used outside the harness)
    class StubIncomplete(AttributeError):
        pass

_OBSERVER = None       # callable(kind, module_id or None, *args): records one event (no scheduling inside)
_YIELD = None          # callable(): a scheduling point, called BEFORE an observed operation takes effect


def _emit(*ev):
    if _OBSERVER is not None:
        _OBSERVER(*ev)


def _sched():
    if _YIELD is not None:
        _YIELD()


class dtype:
    def __init__(self, name):
        self.name = name


float32 = dtype("float32")
float64 = dtype("float64")


class device:
    def __init__(self, name="cpu", *a):
        self.type = str(name)

    def __eq__(self, o):
        return isinstance(o, device) and o.type == self.type

    def __hash__(self):
        return hash(self.type)


def get_default_device():
    return device("cpu")


class Tensor:
    """one parameter tensor: an integer payload [v]; .grad is an observed attribute"""

    def __init__(self, v=0, owner=None, index=None, requires_grad=False):
        self._v = v
        self._grad = None
        self.owner = owner      # module id (set by Module.register)
        self.index = index
        self.device = device("cpu")
        self.requires_grad = requires_grad
        self.is_leaf = True
        self.dtype = float32

    def __getattr__(self, name):
        if name.startswith("__"):
            raise AttributeError(name)
        raise StubIncomplete(f"stand-in torch.Tensor has no attribute {name!r}")

    def to(self, *a, **k):
        return self

    def requires_grad_(self, requires_grad=True):
        self.requires_grad = requires_grad
        return self

    def detach(self):
        return self

    def numel(self):
        return 1

    @property
    def data(self):
        return self

    def clone(self):
        t = type(self)(self.read(), None, None)
        t.requires_grad = self.requires_grad
        return t

    # payload access (what reading / in-place writing a tensor means)
    def read(self):
        _sched()
        v = self._v
        _emit("read", self.owner, self.index, v)
        return v

    def copy_(self, src):
        _sched()
        v = src._v if isinstance(src, Tensor) else src
        self._v = v
        _emit("write", self.owner, self.index, v)
        return self

    @property
    def grad(self):
        return self._grad

    @grad.setter
    def grad(self, g):
        _sched()
        self._grad = g
        _emit("grad", self.owner, self.index, g)


def is_grad_enabled():
    return True


class inference_mode:
    """usable as a decorator (with or without call) and as a context manager"""

    def __init__(self, mode=True):
        self.mode = mode

    def __call__(self, fn):
        @functools.wraps(fn)
        def wrapper(*a, **k):
            return fn(*a, **k)
        return wrapper

    def __enter__(self):
        return self

    def __exit__(self, *a):
        return False


no_grad = inference_mode
enable_grad = inference_mode


def save(obj, path, *a, **k):
    with open(path, "wb") as f:
        pickle.dump(obj, f)


def load(path, *a, **k):
    with open(path, "rb") as f:
        return pickle.load(f)


from . import nn, optim  # noqa: E402,F401
