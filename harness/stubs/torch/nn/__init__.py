"""torch.nn stand-in: Module with named parameter tensors (see torch/__init__.py)."""
import itertools

import torch

_ids = itertools.count()


class Parameter(torch.Tensor):
    def __init__(self, v=0, owner=None, index=None, requires_grad=True):
        super().__init__(v, owner, index, requires_grad)


class Module:
    def __init__(self, nparams=0, value=0):
        self.mid = next(_ids)
        self.training = True
        self._params = {}
        for i in range(nparams):
            self._params[f"p{i}"] = Parameter(value, self.mid, i)

    def __getattr__(self, name):
        if name.startswith("__"):
            raise AttributeError(name)
        raise torch.StubIncomplete(f"stand-in torch.nn.Module has no attribute {name!r}")

    def __deepcopy__(self, memo):
        m = type(self).__new__(type(self))
        m.__dict__.update({k: v for k, v in self.__dict__.items() if k not in ("_params", "mid")})
        m.mid = next(_ids)
        m._params = {k: Parameter(p._v, m.mid, p.index, p.requires_grad) for k, p in self._params.items()}
        return m

    def parameters(self, recurse=True):
        return iter(list(self._params.values()))

    def named_parameters(self, *a, **k):
        return iter(list(self._params.items()))

    def buffers(self, recurse=True):
        return iter(())

    def named_buffers(self, *a, **k):
        return iter(())

    def children(self):
        return iter(())

    def modules(self):
        return iter([self])

    def requires_grad_(self, requires_grad=True):
        for p in self._params.values():
            p.requires_grad = requires_grad
        return self

    def zero_grad(self, set_to_none=True):
        for p in self._params.values():
            p.grad = None

    def state_dict(self):
        return dict(self._params)          # references, as in PyTorch

    def load_state_dict(self, sd, strict=True, assign=False, **kw):
        if kw:
            raise torch.StubIncomplete(f"stand-in Module.load_state_dict has no argument {sorted(kw)}")
        if assign:
            # torch >= 2.1: the module ADOPTS the given tensors instead of copying into its own - from then on the two
            # modules share them (the tensors keep reporting the module they were created for)
            for k in list(self._params):
                self._params[k] = sd[k]
            return
        for k, p in self._params.items():  # element by element: not atomic
            p.copy_(sd[k])

    def eval(self):
        torch._sched()
        self.training = False
        torch._emit("mode", self.mid, False)
        return self

    def train(self, mode=True):
        torch._sched()
        self.training = mode
        torch._emit("mode", self.mid, mode)
        return self

    def to(self, *a, **k):
        return self

    def type(self, *a, **k):
        return self

    def compile(self, *a, **k):
        return self

    def forward(self, *a, **k):
        raise NotImplementedError

    def __call__(self, *a, **k):
        return self.forward(*a, **k)
