"""torch.nn stand-in: Module with named parameter tensors (see torch/__init__.py)."""
import itertools

import torch

_ids = itertools.count()


class Parameter(torch.Tensor):
    pass


class Module:
    def __init__(self, nparams=0, value=0):
        self.mid = next(_ids)
        self.training = True
        self._params = {}
        for i in range(nparams):
            self._params[f"p{i}"] = Parameter(value, self.mid, i)

    def __deepcopy__(self, memo):
        m = type(self).__new__(type(self))
        m.__dict__.update({k: v for k, v in self.__dict__.items() if k not in ("_params", "mid")})
        m.mid = next(_ids)
        m._params = {k: Parameter(p._v, m.mid, p.index) for k, p in self._params.items()}
        return m

    def parameters(self):
        return iter(list(self._params.values()))

    def state_dict(self):
        return dict(self._params)          # references, as in PyTorch

    def load_state_dict(self, sd):
        for k, p in self._params.items():  # element by element: not atomic
            p.copy_(sd[k])

    def eval(self):
        torch._sched()
        self.training = False
        torch._emit("mode", self.mid, False)
        return self

    def train(self, mode=True):
        torch._sched()
        self.training = mode
        torch._emit("mode", self.mid, mode)
        return self

    def to(self, *a, **k):
        return self

    def type(self, *a, **k):
        return self

    def compile(self, *a, **k):
        return self

    def forward(self, *a, **k):
        raise NotImplementedError

    def __call__(self, *a, **k):
        return self.forward(*a, **k)
