"""torch.optim stand-in (types only)."""
from . import lr_scheduler  # noqa: F401


class Optimizer:
    def state_dict(self):
        return {}

    def load_state_dict(self, d):
        pass
