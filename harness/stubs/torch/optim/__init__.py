"""torch.optim stand-in.  What matters for C19 is kept as in PyTorch: an optimizer holds REFERENCES to the parameter tensors
it was given, step() updates in place those of them that have a grad (a parameter whose grad is None is skipped) and
zero_grad() clears the grads of the parameters it holds."""
from . import lr_scheduler  # noqa: F401


class Optimizer:
    def __init__(self, params=(), lr=1, **kw):
        self.param_groups = [{"params": list(params), "lr": lr}]
        self.steps = 0

    def _params(self):
        return [p for g in self.param_groups for p in g["params"]]

    def step(self, closure=None):
        self.steps += 1
        for p in self._params():
            if p.grad is not None:
                p.copy_(p._v + self.param_groups[0]["lr"])      # observed as an in-place write of that tensor

    def zero_grad(self, set_to_none=True):
        for p in self._params():
            if p.grad is not None:
                p.grad = None

    def state_dict(self):
        return {"steps": self.steps}

    def load_state_dict(self, d):
        self.steps = d.get("steps", 0)


class SGD(Optimizer):
    pass


class Adam(Optimizer):
    pass
