class LRScheduler:
    def state_dict(self):
        return {}

    def load_state_dict(self, d):
        pass
