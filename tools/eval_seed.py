#!/usr/bin/env python3
"""Confirms a seeded change delivered by a sub-agent and runs our checks against it.
usage: eval_seed.py <worktree dir> <seed name> <check id> [<check id> ...]
Copies patch.diff / demo / meta.json into /verif/seeded/<seed name>/, re-runs the demo with and without the change,
runs the repository's suite with the change, runs ./check <id> --tier quick with PAMIQ_REPO=<worktree>, and records everything."""
import json, os, shutil, subprocess, sys, re
from pathlib import Path

d, name, checks = Path(sys.argv[1]), sys.argv[2], sys.argv[3:]
out = Path("/verif/seeded") / name
out.mkdir(parents=True, exist_ok=True)
seed = d / "seed"
for f in seed.iterdir():
    if f.is_file() and not f.name.startswith("FOREIGN"):
        shutil.copy(f, out / f.name)
    elif f.is_dir() and f.name != "__pycache__":
        shutil.copytree(f, out / f.name, dirs_exist_ok=True, ignore=shutil.ignore_patterns("__pycache__"))
meta = json.loads((out / "meta.json").read_text()) if (out / "meta.json").exists() else {}
env = dict(os.environ, PYTHONPATH=f"{d}/src")
demo = next((f for f in seed.iterdir() if f.name.startswith("demo") or f.name.startswith("test_")), None)

def run_demo():
    if demo is None:
        return None
    cmd = ["/venv/bin/python", "-m", "pytest", "-q", "-p", "no:cacheprovider", str(demo)] if demo.name.startswith("test_") else ["/venv/bin/python", str(demo)]
    p = subprocess.run(cmd, cwd=d, env=env, capture_output=True, text=True, timeout=600)
    return p.returncode

# bring the worktree to exactly "HEAD + the delivered patch" (git stash is shared between worktrees: not used here)
subprocess.run(["git", "-C", str(d), "checkout", "--", "src"], check=True)
subprocess.run(["git", "-C", str(d), "apply", str(seed / "patch.diff")], check=True)
with_change = run_demo()
subprocess.run(["git", "-C", str(d), "apply", "-R", str(seed / "patch.diff")], check=True)
try:
    without_change = run_demo()
finally:
    subprocess.run(["git", "-C", str(d), "apply", str(seed / "patch.diff")], check=True)
suite = subprocess.run(["/venv/bin/python", "-m", "pytest", "-q", "-p", "no:cacheprovider", "--timeout=900", "--continue-on-collection-errors"],
                       cwd=d, env=env, capture_output=True, text=True, timeout=1200)
suite_line = [l for l in suite.stdout.splitlines() if "passed" in l or "failed" in l][-1:] or ["?"]
suite_line = re.sub(r"\x1b\[[0-9;]*m", "", suite_line[0])
results = {}
for c in checks:
    p = subprocess.run(["./check", c, "--tier", "quick"], cwd="/verif", env=dict(os.environ, PAMIQ_REPO=str(d)), capture_output=True, text=True, timeout=3000)
    lines = [l for l in p.stdout.splitlines() if l.startswith("VIOLATION") or l.startswith("[")]
    results[c] = {"exit": p.returncode, "lines": lines[-4:]}
    for l in lines:
        m = re.search(r"replay=(\S+)", l)
        if m and Path(m.group(1)).exists():
            shutil.copy(m.group(1), out / ("replay_" + Path(m.group(1)).name))
            Path(m.group(1)).unlink()
meta["confirmed"] = {"demo_exit_with_change": with_change, "demo_exit_without_change": without_change, "suite_with_change": suite_line,
                     "checks_run": "./check <id> --tier quick with PAMIQ_REPO=<scratch worktree with the change applied>", "check_results": results,
                     "caught": any(r["exit"] != 0 and any(l.startswith("VIOLATION") for l in r["lines"]) for r in results.values())}   # a check that dies without a VIOLATION line has reported nothing
(out / "meta.json").write_text(json.dumps(meta, indent=1))
print(json.dumps(meta["confirmed"], indent=1))
