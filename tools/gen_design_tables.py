"""usage: gen_design_tables.py [--write]   (with --write: replaces the block between the TABLES markers in DESIGN.md)
Prints markdown tables for DESIGN.md §10 from the property modules, the Coq property files and the seeded/ directory."""
import importlib, json, re, sys
from pathlib import Path
sys.path.insert(0, "/verif")
V = Path("/verif")
rows = []
for i in range(1, 21):
    pid = f"C{i:02d}"
    m = importlib.import_module(f"harness.props.{pid.lower()}")
    pf = (V / "coq" / m.THEOREM_FILE).read_text()
    thms = re.findall(r"^Theorem (\w+)", pf, re.M)
    imports = re.findall(r"From Pamiq Require (?:Import )?([^.]*(?:\.[A-Za-z0-9_]+)*)\.", pf)
    mods = sorted({x for l in re.findall(r"^From Pamiq Require[^\n]*", pf, re.M) for x in re.findall(r"(Model\.\w+|Proofs\.\w+|Check\.\w+)", l)})
    ev = json.loads((V / "evidence" / f"{pid}.json").read_text()) if (V / "evidence" / f"{pid}.json").exists() else {}
    cov = ev.get("coverage", {})
    rows.append((pid, mods, thms, cov.get("evaluations"), cov.get("distinct_nontrivial"), ev.get("wall_s")))
import io, contextlib
buf = io.StringIO()
ctx = contextlib.redirect_stdout(buf)
ctx.__enter__()
print("| id | model / check / proof files | property theorems (all `Closed under the global context`) | quick: cases / non-trivial / s |")
print("|---|---|---|---|")
for pid, mods, thms, n, nt, w in rows:
    print(f"| {pid} | {', '.join(mods)} | {', '.join(thms)} | {n} / {nt} / {w} |")
print()
print("| seeded change | property | caught by (quick tier, `PAMIQ_REPO=<worktree>`) | how |")
print("|---|---|---|---|")
for d in sorted((V / "seeded").iterdir()):
    mf = d / "meta.json"
    if not mf.exists():
        continue
    meta = json.loads(mf.read_text())
    c = meta.get("confirmed", {})
    res = c.get("check_results", {})
    parts = []
    for k, r in res.items():
        lines = [l for l in r["lines"] if l.startswith("VIOLATION")]
        if r["exit"] == 0:
            parts.append(f"{k}: not caught")
        elif not lines:
            parts.append(f"{k}: not caught (the check ended with status {r['exit']} without a VIOLATION line)")
        elif any("no-failing-input-found" in l for l in lines) and not any("no-failing-input-found" not in l for l in lines):
            parts.append(f"{k}: correspondence broken, no-failing-input-found")
        else:
            parts.append(f"{k}: failing input")
    for k, r in (c.get("second_evaluation") or {}).items():
        lines = [l for l in r["lines"] if l.startswith("VIOLATION")]
        weak = lines and all("no-failing-input-found" in l for l in lines)
        parts.append(f"after strengthening {k}: " + ("correspondence broken, no-failing-input-found" if weak else ("failing input" if lines else "not caught")))
    print(f"| `{d.name}` | {meta.get('property')} | {'; '.join(parts)} | {meta.get('summary', '')[:160].replace('|', '/')}… |")

ctx.__exit__(None, None, None)
txt = buf.getvalue()
if "--write" in sys.argv:
    d = (V / "DESIGN.md").read_text()
    a, b = d.index("<!-- TABLES:BEGIN -->") + len("<!-- TABLES:BEGIN -->"), d.index("<!-- TABLES:END -->")
    (V / "DESIGN.md").write_text(d[:a] + "\n" + txt + d[b:])
else:
    print(txt)
