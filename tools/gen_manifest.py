#!/usr/bin/env python3
"""Regenerates /verif/MANIFEST.json from the table below (kept valid at every commit)."""
import json
from pathlib import Path

V = Path(__file__).resolve().parent.parent
BASE = ("cd /repo && /venv/bin/python -m pytest -ra -q -p no:cacheprovider --timeout=900 "
        "--continue-on-collection-errors --junitxml=/tmp/pamiq_baseline.junit.xml")

# id -> (technique, level text, level note, design ref)
CLAIMED = {
    "C15": ("Coq theorems over an executable scheduler model with an adversarial clock stream + differential correspondence (vm_compute) against the real schedulers",
            "Machine-checked proof (Coq 8.16.1) that, for every interval, callback list, operation sequence and every clock behaviour between any two reads, "
            "the model's trace satisfies the firing oracle (fires only when >= interval elapsed, fires when > interval elapsed, never restarts without running every callback once in order; "
            "step schedulers fire on exactly every n-th update; the save condition answers true iff its scheduler fired). The model is tied to /repo by running the real "
            "TimeIntervalScheduler / StepIntervalScheduler / PeriodicSaveCondition under a scripted clock on generated cases and comparing traces inside Coq; the same oracle is evaluated on the implementation's traces.",
            "Trusted: Coq kernel + vm_compute; the hand-written model (coq/Model/Sched.v); the scripted-clock runner; exact float arithmetic on dyadic ticks. The theorem is about the model; the code is tied to it only on the sampled cases.",
            "DESIGN.md §4 C15"),
    "C11": ("Coq theorems over an executable buffer model (random draws as oracle arguments) + black-box contract oracle proved on the model and evaluated on the real buffers",
            "Machine-checked proof that for every buffer class (plain / dict, any non-empty key set), capacity >= 1, rational probability, and every sequence of add/get/len/"
            "mutate-returned/save+load with any admissible random draws, the model obeys the contract oracle (sequential = last max_size in order; random-replacement: bound, fill order, "
            "at most one slot changes to the added sample, replaced when draw < p, kept when draw > p and always when p = 0, only added samples, keys aligned, wrong keys rejected unchanged, "
            "copies returned, len = data, save/load keeps content, whole documented parameter range accepted). Tied to /repo by running the four public classes with scripted random on generated cases; "
            "outputs compared with the model and checked by the same oracle inside Coq.",
            "Trusted: Coq kernel + vm_compute; coq/Model/Buffers.v; the runner's scripted `random` stub and view canonicalisation; pickle round trip. Theorems are about the model.",
            "DESIGN.md §4 C11"),
    "C06": ("Coq refinement proof: the anchor arithmetic of TimeController refines the abstract scaled/pausable clock, for every operation history over Q + differential correspondence on a virtual raw clock",
            "Machine-checked refinement: for every history of read/set-scale/pause/resume/export/load/sleep operations with any rational arguments and any real-time advance between them, "
            "every output of the model of time.py equals the output of the abstract clock 'value grows at rate scale while not paused' (hence monotone, still while paused, continuous across "
            "scale changes / pause / resume, pure reads and exports, continues after load, sleep(d) lasts d/scale). The model is tied to /repo by re-executing pamiq_core/time.py on a virtual "
            "stdlib time module and comparing all three channels exactly (dyadic values) inside Coq, against both the code model and the abstract clock.",
            "Trusted: Coq kernel + vm_compute; coq/Model/Clock.v; harness/sim/faketime.py; exactness of float arithmetic on the generated dyadic values. Real time advances only between operations; float rounding not modelled.",
            "DESIGN.md §4 C06"),
}
REASON_TODO = "not claimed at this commit: model and correspondence for this property are not built yet (plan in DESIGN.md §4)"

props = [json.loads(l) for l in (V / "properties.jsonl").read_text().splitlines() if l.strip()]
checks, na = [], []
for p in props:
    pid = p["id"]
    if pid in CLAIMED:
        tech, text, note, ref = CLAIMED[pid]
        checks.append({
            "property_id": pid,
            "quick_cmd": f"./check {pid} --tier quick",
            "thorough_cmd": f"./check {pid} --tier thorough",
            "evidence_file": f"/verif/evidence/{pid}.json",
            "replay_cmd_template": f"./check {pid} --replay {{path}}",
            "engine": "coq-models",
            "level_claimed": {"category": "proof", "text": text, "design_ref": ref},
            "level_note": note,
            "technique": tech,
        })
    else:
        na.append({"property_id": pid, "reason": REASON_TODO})

m = {
    "version": 1,
    "setup_cmd": "cd /verif/coq && coq_makefile -f _CoqProject -o Makefile && timeout 3000 make -j16",
    "hooks": {
        "guard": "PAMIQ_CORE_VERIF",
        "enable": "none needed: the checks run /repo/src unmodified in fresh interpreters (PYTHONPATH=/repo/src) and substitute clocks / threading / random at public module seams from /verif; PAMIQ_CORE_VERIF=1 is exported for uniformity",
        "baseline_off_cmd": BASE,
        "source_commits": [],
        "add_only": True,
    },
    "engines": [
        {"name": "coq-models", "path": "/verif/coq", "serves_properties": sorted(CLAIMED),
         "kind_free_text": "hand-written executable Gallina models, theorems in Properties/*.v, oracles in Check/*.v evaluated by vm_compute on implementation traces"},
        {"name": "impl-harness", "path": "/verif/harness", "serves_properties": sorted(CLAIMED),
         "kind_free_text": "runs the real code from /repo/src on generated cases (scripted clocks, deterministic scheduler), writes cases files for Coq, shrinks and reports"},
    ],
    "checks": checks,
    "not_applicable": na,
    "notes": "All checks: ./check <id> --tier quick|thorough [--replay file]. Known findings: /verif/known_findings.json. See DESIGN.md.",
}
(V / "MANIFEST.json").write_text(json.dumps(m, indent=1) + "\n")
print("claimed", len(checks), "not claimed", len(na))
