#!/usr/bin/env python3
"""Regenerates /verif/MANIFEST.json from the table below (kept valid at every commit)."""
import json
from pathlib import Path

V = Path(__file__).resolve().parent.parent
BASE = ("cd /repo && /venv/bin/python -m pytest -ra -q -p no:cacheprovider --timeout=900 "
        "--continue-on-collection-errors --junitxml=/tmp/pamiq_baseline.junit.xml")

# id -> (technique, level text, level note, design ref)
import importlib, sys
sys.path.insert(0, str(V))
CLAIMED = {}
for f in sorted((V / "harness" / "props").glob("c*.py")):
    mod = importlib.import_module(f"harness.props.{f.stem}")
    if getattr(mod, "CLAIMED", True):
        CLAIMED[mod.ID] = (mod.TECHNIQUE, mod.LEVEL_TEXT, mod.LEVEL_NOTE, mod.DESIGN_REF)
REASON_TODO = "not claimed at this commit: model and correspondence for this property are not built yet (plan in DESIGN.md §4)"

props = [json.loads(l) for l in (V / "properties.jsonl").read_text().splitlines() if l.strip()]
checks, na = [], []
for p in props:
    pid = p["id"]
    if pid in CLAIMED:
        tech, text, note, ref = CLAIMED[pid]
        checks.append({
            "property_id": pid,
            "quick_cmd": f"./check {pid} --tier quick",
            "thorough_cmd": f"./check {pid} --tier thorough",
            "evidence_file": f"/verif/evidence/{pid}.json",
            "replay_cmd_template": f"./check {pid} --replay {{path}}",
            "engine": "coq-models",
            "level_claimed": {"category": "proof", "text": text, "design_ref": ref},
            "level_note": note,
            "technique": tech,
        })
    else:
        na.append({"property_id": pid, "reason": REASON_TODO})

m = {
    "version": 1,
    "setup_cmd": "cd /verif/coq && coq_makefile -f _CoqProject -o Makefile && timeout 3000 make -j16",
    "hooks": {
        "guard": "PAMIQ_CORE_VERIF",
        "enable": "none needed: the checks run /repo/src unmodified in fresh interpreters (PYTHONPATH=/repo/src) and substitute clocks / threading / random at public module seams from /verif; PAMIQ_CORE_VERIF=1 is exported for uniformity",
        "baseline_off_cmd": BASE,
        "source_commits": [],
        "add_only": True,
    },
    "engines": [
        {"name": "coq-models", "path": "/verif/coq", "serves_properties": sorted(CLAIMED),
         "kind_free_text": "hand-written executable Gallina models, theorems in Properties/*.v, oracles in Check/*.v evaluated by vm_compute on implementation traces"},
        {"name": "impl-harness", "path": "/verif/harness", "serves_properties": sorted(CLAIMED),
         "kind_free_text": "runs the real code from /repo/src on generated cases (scripted clocks, deterministic scheduler), writes cases files for Coq, shrinks and reports"},
    ],
    "checks": checks,
    "not_applicable": na,
    "notes": "All checks: ./check <id> --tier quick|thorough [--replay file]. Known findings: /verif/known_findings.json. See DESIGN.md.",
}
(V / "MANIFEST.json").write_text(json.dumps(m, indent=1) + "\n")
print("claimed", len(checks), "not claimed", len(na))
