#!/bin/bash
# usage: goal.sh <file.v> <line>   — show the proof state just before <line> (development aid only)
f=$1; n=$2
d=$(mktemp -d)
head -n $((n-1)) "$f" > $d/G.v
echo 'Show. Abort.' >> $d/G.v
(cd /verif/coq && timeout 120 coqc -Q . Pamiq $d/G.v -o $d/G.vo 2>&1 | tail -${3:-60})
rm -rf $d
