#!/bin/bash
# Re-checks every compiled property file (and everything it depends on) with Coq's independent checker and
# records the axioms it reports.  Slow (minutes, GBs): not part of the per-property checks.
# usage: tools/run_coqchk.sh     -> writes /verif/evidence/coqchk.txt
cd "$(dirname "$0")/../coq" || exit 1
mods=$(ls Properties/*.v | sed 's#/#.#; s#\.v$##; s#^#Pamiq.#')
( date -u; echo "coqchk -o -silent -Q . Pamiq $mods"; ulimit -v 12000000; timeout 3000 coqchk -o -silent -Q . Pamiq $mods 2>&1 | tail -40 ) > ../evidence/coqchk.txt
tail -15 ../evidence/coqchk.txt
