"""development aid: run one scenario (a replay file or a case JSON) on the implementation and show where the
thread model first rejects the trace.  usage: tools/why_reject.py <replay.json> [prop module]"""
import json, sys, importlib
sys.path.insert(0, "/verif")
from harness import core
j = json.load(open(sys.argv[1]))
case = j.get("case", j)
prop = importlib.import_module("harness.props." + (sys.argv[2] if len(sys.argv) > 2 else "c01"))
obs = core.run_impl(prop.IMPL, [case], 1, 600)
o = obs[0]
tr = o.get("trace") or []
print("outcome", o.get("outcome"), "deadlock", o.get("deadlock"), "events", len(tr), {k: v for k, v in o.items() if k not in ("trace",)})
txt = core.coq_eval_text(prop, prop.coq_expected(case, o))
print(txt[-300:])
import re
m = re.search(r"Some (\d+)", txt)
if m:
    from harness.simtrace import project
    k = int(m.group(1)); p = project(tr)
    for i in range(max(0, k - 25), min(len(p), k + 3)):
        print(i, p[i], "<== rejected" if i == k else "")
